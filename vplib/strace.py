"""System-call tracing and fault / kill / stop / delay injection for the real rocfl CLI
(DESIGN.md 3.5, Appendix B "System-call abstraction", Appendix F).  Python 3 stdlib only;
needs strace >= 5.x (6.1 verified) with ptrace permitted.

Quick reference
---------------
    from vplib import strace as st
    env  = st.rocfl_env(os.path.join(ctx.tmp, "home"))           # no user config is read
    cmd  = st.rocfl_cmd(root, staging_or_None, "commit", "obj-1", "-m", "msg")
    t0   = st.trace(cmd, env=env)                                 # fault-free recording run
    t0.rc, t0.stdout, t0.stderr, t0.killed
    t0.calls        # mutating file-system calls in order: Call(k, nth, name, path, path2, flags, ret, errno, pid, injected, ok, ...)
    t0.ops          # abstraction: ("mkdir",p) ("createnew",p) ("create",p) ("rename",a,b) ("unlink",p) ("rmdir",p)
                    #              ("link",a,b) ("symlink",target,p) ("chmod",p) ("utime",p) ("truncate",p)
    t0.points       # injection points (name, n) of the mutating calls of the main thread, in order
    for pt in t0.points:                                          # the repository must be put back into the
        t = st.trace(cmd, env=env, inject={"when": pt, "error": "EIO"})     # same initial state before every run
    st.count_calls(cmd, env=env)                                  # == len(trace(cmd).points)
    r = st.start(cmd, env=env, inject={"when": pt, "delay_us": 1500000})                     # background run
    r.wait_held()             # blocks until the command sits in the delayed call (heuristic via /proc)
    ... run something else meanwhile ...
    t = r.wait(); t.held_window(1500000)   # (start, end) wall-clock window of the delay, from strace -ttt stamps
    t0.call_at(pt)            # the Call at a point;  Call.ts = entry time stamp;  t0.fsops(include_failed=True)
    st.rocfl_env / rocfl_cmd / staging_root / locks_dir / lock_path / hashed_ntuple / staged_object_root / fmt_ops
    self-test:  python3 -m vplib.strace

What `when` means (read this before enumerating injection points)
-----------------------------------------------------------------
strace selects calls by *name* (and by exact path with -P), never by open flags, and it keeps one
counter per thread AND PER SYSTEM CALL NAME: `inject=openat,rename:error=EIO:when=3` fails the
third openat and the third rename.  An injection point is therefore a pair
        point = (syscall name, n)      "the n-th call of that name made by one thread"
counted at syscall entry, successful or not, *including* calls of that name that are not mutating
(read-only openat of shared libraries and inventories count as openat).  Every `Call` carries its
point in `.point` (= (c.name, c.nth)); `inject["when"]` takes such a point - a tuple/list
("rename", 1), the string "rename:1", or a Call of a recording run - and the library passes
`-e inject=<name>:<kind>:when=<n>` to strace.  A point taken from a recording run hits the same call
in a second run of the same command from the same initial file-system state (the prefix of the run
before the point is deterministic: rocfl does all file-system work on its main thread, the only other
thread is the idle ctrl-c handler; the self-test checks this).  `Trace.points` lists the points of
the mutating calls of the main thread in execution order; `Call.k` is the position of the call among
all counted calls of its thread (informational, dense over `Trace.all_calls`, which also holds the
non-mutating calls of the counted set).  A plain integer `when: n` is passed through to strace with
the whole counted set ("the n-th call of EVERY name in the set") - rarely what you want, except
together with "path" (-P), where `when: 1` means "the first call of each counted name on that path".

Counted sets (`inject["set"]`, default "mutating"); the strace expression is SETS[name]:
  "mutating"        open, openat, creat, rename, renameat, renameat2, unlink, unlinkat, rmdir, mkdir,
                    mkdirat, link, linkat, symlink, symlinkat, truncate, ftruncate, copy_file_range,
                    sendfile, fchmod, fchmodat, chmod, utimensat          (no write: one point per file)
  "mutating+write"  the above + write, pwrite64, writev  (rocfl writes inventories unbuffered, about
                    200 write calls each: use this set to stop/kill in the middle of a file)
  "all-fs"          "mutating+write" + access, faccessat, faccessat2, stat, lstat, fstat, newfstatat, statx,
                    readlink, readlinkat, openat2, statfs, getdents64, read, pread64, fsync, fdatasync,
                    chdir                                               (read faults as well)
A recording run must use the same `set=` (and the same `path=`) as the injection run:
`trace(cmd, set="mutating+write")` records with that set.  With `inject["path"]` (strace -P,
exact path, may be a list) only calls that touch that path are traced and counted, e.g.
{"when": ("openat", 1), "error": "EIO", "path": obj + "/inventory.json.sha512"} fails the first open of the sidecar.

Injection kinds
  {"when": pt, "error": "EIO"|"ENOSPC"|"EACCES"|...}  the call is not executed and fails with errno
  {"when": pt, "signal": "SIGKILL"}                   the process dies on entering the call, the call is
                                                      NOT executed (trace shows `= ?`); Trace.killed = True
  {"when": pt, "signal": "SIGINT"}                    signal delivered on entering the call, the call IS
                                                      executed; rocfl's handler calls OcflRepo::close
  {"when": pt, "delay_us": n}                         the call is delayed by n microseconds on entry
                                                      (held BEFORE the call takes effect)
  {"when": pt, "delay_exit_us": n}                    the call is executed, then the command is held for n
                                                      microseconds before the call returns (held AFTER the
                                                      effect: e.g. at the unlink of a lock file = the lock is
                                                      already released while the command has not moved on).
                                                      Both kinds are marked (DELAYED) by strace -> Call.injected;
                                                      Call.ts is the ENTRY stamp in both cases; wait_held() and
                                                      held_window(n) work for both
  The n of a point may also be a strace expression string: ("write", "3+") = every write from the 3rd on.
"""
import os
import re
import signal
import subprocess
import sys
import tempfile
import time

from . import common

_M = ("open,openat,creat,rename,renameat,renameat2,unlink,unlinkat,rmdir,mkdir,mkdirat,link,linkat,"
      "symlink,symlinkat,truncate,ftruncate,copy_file_range,sendfile,fchmod,fchmodat,chmod,utimensat")
_W = "write,pwrite64,writev"
SETS = {
    "mutating": _M,
    "mutating+write": _M + "," + _W,
    "all-fs": _M + "," + _W + ",access,faccessat,faccessat2,stat,lstat,fstat,newfstatat,statx,readlink,readlinkat,"
              "openat2,statfs,getdents64,read,pread64,fsync,fdatasync,chdir",
}
# names of the system calls that can change the file system (opens only with write flags, see _is_mutating)
MUTATING = tuple((_M + "," + _W).split(","))
# always traced in addition to the counted set (descriptor / cwd bookkeeping, collapsing of writes)
_BOOKKEEPING = "close,dup,dup2,dup3,chdir,fchdir," + _W
_WRITE_FLAGS = ("O_WRONLY", "O_RDWR", "O_CREAT", "O_TRUNC", "O_APPEND")
_FD_WRITERS = ("write", "pwrite64", "writev", "copy_file_range", "sendfile", "ftruncate", "fchmod")


class Call:
    """one traced system call.
    k        position of this call among the calls of the counted set made by `pid` (1-based, informational)
    nth      strace's own ordinal: this is the nth call NAMED `name` made by `pid`;  point = (name, nth) is what
             inject["when"] takes
    name     system call name;  path / path2  absolute normalised paths (path2: rename/link target, symlink's link path)
    flags    tuple of flag names (open flags, AT_REMOVEDIR ...);  ret  int or None ('?');  errno  'EEXIST' or None
    ts       wall-clock time (epoch seconds, strace -ttt) at which the call was entered
    injected True when strace tampered with this call (error, delay; for signals: the call at the injection point)
    ok       the call took effect (ret >= 0); failed probes (EEXIST mkdir, ENOENT unlink) and injected errors: False
    mutating the call belongs to the mutating file-system calls (open with write flags, write to a regular file...)
    nwrites, nbytes   for an open: the write-like calls on that descriptor that were collapsed into it
    part_of  for a write-like call on a descriptor: index (in Trace.all_calls) of the open it belongs to, else None"""
    __slots__ = ("k", "nth", "ts", "name", "path", "path2", "flags", "ret", "errno", "pid", "injected", "ok",
                 "mutating", "nwrites", "nbytes", "part_of", "raw", "fd")

    def __init__(self, **kw):
        for s in self.__slots__:
            setattr(self, s, kw.get(s))

    @property
    def point(self):
        return (self.name, self.nth)

    def as_dict(self):
        return {s: getattr(self, s) for s in self.__slots__ if s not in ("raw",)}

    def __repr__(self):
        r = "?" if self.ret is None else self.ret
        return "Call(k=%s %s#%s %s%s%s = %s%s%s)" % (
            self.k, self.name, self.nth, self.path, " -> %s" % self.path2 if self.path2 else "",
            " [%s]" % "|".join(self.flags) if self.flags else "", r,
            " " + self.errno if self.errno else "", " INJECTED" if self.injected else "")


class Trace:
    """result of one traced run (see module doc).  Attributes: rc, stdout, stderr, killed, signal, timed_out,
    calls (mutating calls only), all_calls (every call of the counted set), ops, points, main_pid, wall_s, argv"""

    def __init__(self):
        self.rc = None
        self.stdout = ""
        self.stderr = ""
        self.killed = False
        self.signal = None
        self.timed_out = False
        self.all_calls = []
        self.calls = []
        self.main_pid = None
        self.wall_s = 0.0
        self.argv = []
        self.strace_log = None
        self.parse_errors = []
        self.t_last = None        # time stamp of the last line of the trace (exit of the process)

    @property
    def points(self):
        """injection points (name, n) of the mutating calls made by the main thread, in execution order"""
        return [c.point for c in self.calls if c.pid == self.main_pid and c.k is not None]

    def call_at(self, point):
        """the Call of the main thread at an injection point, or None"""
        name, n = parse_point(point)
        for c in self.all_calls:
            if c.pid == self.main_pid and c.name == name and c.nth == n:
                return c
        return None

    @property
    def ops(self):
        return self.fsops()

    def fsops(self, include_failed=False):
        """abstract file-system operations (tuples) of the calls that took effect, in order.  Writes are
        collapsed into the open of their descriptor.  include_failed=True: list of (op, ok) for all calls."""
        out = []
        for c in self.calls:
            op = abstract_op(c)
            if op is None:
                continue
            if include_failed:
                out.append((op, bool(c.ok)))
            elif c.ok:
                out.append(op)
        return out

    def injected_calls(self):
        return [c for c in self.all_calls if c.injected]

    def held_window(self, delay_us):
        """(start, end) wall-clock interval during which a `delay_us` injection kept the command stopped on
        entering the injected call, or None when no call was delayed"""
        inj = [c for c in self.all_calls if c.injected and c.ts is not None]
        if not inj:
            return None
        return (inj[0].ts, inj[0].ts + delay_us / 1e6)

    def summary(self):
        return {"rc": self.rc, "killed": self.killed, "signal": self.signal, "ncalls": len(self.calls),
                "injected": [repr(c) for c in self.injected_calls()]}


def abstract_op(c):
    """Call -> fsop tuple (DESIGN.md Appendix B) or None for calls that are part of another one"""
    n = c.name
    if c.part_of is not None:
        return None
    if n in ("open", "openat", "creat"):
        fl = c.flags or ()
        if "O_CREAT" in fl and "O_EXCL" in fl:
            return ("createnew", c.path)
        return ("create", c.path)
    if n in ("mkdir", "mkdirat"):
        return ("mkdir", c.path)
    if n in ("rename", "renameat", "renameat2"):
        return ("rename", c.path, c.path2)
    if n == "unlink":
        return ("unlink", c.path)
    if n == "unlinkat":
        return ("rmdir", c.path) if "AT_REMOVEDIR" in (c.flags or ()) else ("unlink", c.path)
    if n == "rmdir":
        return ("rmdir", c.path)
    if n in ("link", "linkat"):
        return ("link", c.path, c.path2)
    if n in ("symlink", "symlinkat"):
        return ("symlink", c.path, c.path2)      # (target text as written, absolute path of the new link)
    if n in ("chmod", "fchmod", "fchmodat"):
        return ("chmod", c.path)
    if n == "utimensat":
        return ("utime", c.path)
    if n in ("truncate", "ftruncate"):
        return ("truncate", c.path)
    if n in _FD_WRITERS:                          # write on a descriptor whose open was not seen
        return ("create", c.path)
    return None


# --------------------------------------------------------------------------- parsing strace output

_ESC = {"n": 10, "t": 9, "r": 13, "v": 11, "f": 12, "a": 7, "b": 8, "e": 27, '"': 34, "\\": 92, "'": 39}


def _unescape(s):
    """strace's C-style escapes (\\n, \\", \\\\, octal \\303, hex \\xc3) -> str (utf-8, surrogateescape)"""
    if "\\" not in s:
        return s
    out = bytearray()
    i, n = 0, len(s)
    while i < n:
        ch = s[i]
        if ch != "\\" or i + 1 >= n:
            out += ch.encode("utf-8", "surrogateescape")
            i += 1
            continue
        d = s[i + 1]
        if d in "01234567":
            j = i + 1
            while j < n and j < i + 4 and s[j] in "01234567":
                j += 1
            out.append(int(s[i + 1:j], 8) & 255)
            i = j
        elif d == "x" and i + 3 < n + 0 and re.match(r"[0-9a-fA-F]{2}", s[i + 2:i + 4]):
            out.append(int(s[i + 2:i + 4], 16))
            i += 4
        elif d in _ESC:
            out.append(_ESC[d])
            i += 2
        else:
            out += d.encode("utf-8", "surrogateescape")
            i += 2
    return out.decode("utf-8", "surrogateescape")


def _split_args(s):
    """split the text between the parentheses of a strace line into top-level arguments"""
    args, cur, depth, i, n = [], [], 0, 0, len(s)
    in_str = in_angle = False
    while i < n:
        ch = s[i]
        if in_str:
            cur.append(ch)
            if ch == "\\" and i + 1 < n:
                cur.append(s[i + 1])
                i += 1
            elif ch == '"':
                in_str = False
        elif in_angle:
            cur.append(ch)
            if ch == "\\" and i + 1 < n:
                cur.append(s[i + 1])
                i += 1
            elif ch == ">":
                in_angle = False
        elif ch == '"':
            in_str = True
            cur.append(ch)
        elif ch == "<" and cur and (cur[-1].isalnum() or cur[-1] == "_"):
            in_angle = True
            cur.append(ch)
        elif ch in "([{":
            depth += 1
            cur.append(ch)
        elif ch in ")]}":
            depth -= 1
            cur.append(ch)
        elif ch == "," and depth == 0:
            args.append("".join(cur).strip())
            cur = []
        else:
            cur.append(ch)
        i += 1
    if cur or args:
        args.append("".join(cur).strip())
    return args


def _find_close(s, start):
    """index of the parenthesis closing the argument list that opens at s[start] == '('"""
    depth, i, n = 0, start, len(s)
    in_str = in_angle = False
    while i < n:
        ch = s[i]
        if in_str:
            if ch == "\\":
                i += 1
            elif ch == '"':
                in_str = False
        elif in_angle:
            if ch == "\\":
                i += 1
            elif ch == ">":
                in_angle = False
        elif ch == '"':
            in_str = True
        elif ch == "<" and i > 0 and (s[i - 1].isalnum() or s[i - 1] == "_"):
            in_angle = True
        elif ch in "([{":
            depth += 1
        elif ch in ")]}":
            depth -= 1
            if depth == 0:
                return i
        i += 1
    return -1


def _strval(a):
    """argument `"text"` (possibly followed by ...) -> python str, else None"""
    m = re.match(r'^"((?:[^"\\]|\\.)*)"(\.\.\.)?$', a, re.S)
    return _unescape(m.group(1)) if m else None


def _fdval(a):
    """argument `5</path>` or `AT_FDCWD</cwd>` or `5` -> (fd or 'AT_FDCWD', path or None)"""
    m = re.match(r"^(-?\d+|AT_FDCWD)(?:<(.*)>)?$", a, re.S)
    if not m:
        return None, None
    fd = m.group(1)
    p = m.group(2)
    if p is not None:
        p = _unescape(p)
        if p.endswith(" (deleted)"):
            p = p[:-len(" (deleted)")]
    return (fd if fd == "AT_FDCWD" else int(fd)), p


def _norm(base, p):
    if p is None:
        return None
    if not p.startswith("/"):
        p = os.path.join(base or "/", p)
    return os.path.normpath(p)


def _regular(p):
    """a descriptor path that denotes a file-system object (not a pipe, socket, tty, /proc or /dev entry)"""
    return bool(p) and p.startswith("/") and not p.startswith(("/dev/", "/proc/", "/sys/"))


def _names(setexpr):
    return set(x.lstrip("?") for x in setexpr.split(",") if not x.startswith("%"))


_LINE = re.compile(r"^(\d+)\s+(?:(\d+\.\d+)\s+)?(.*)$", re.S)
_RES = re.compile(r"^\s*=\s*(\?|-?\d+|0x[0-9a-f]+)(?:<((?:[^>\\]|\\.)*)>)?\s*(?:(E[A-Z0-9]+)\s*\([^)]*\))?\s*(.*)$", re.S)


def parse(text, cwd, counted, trace_obj=None):
    """strace -f -y output (-o file) -> Trace with all_calls / calls filled.
    counted: set of syscall names that strace counts for `when` (None: everything that is parsed)"""
    t = trace_obj or Trace()
    pending = {}          # pid -> (name, partial text, (k, nth))
    counters = {}         # pid -> number of counted calls entered so far;  (pid, name) -> calls of that name
    cwds = {}             # pid -> cwd (inherited from the first pid)
    fds = {}              # fd -> index in all_calls of the open that produced it (threads share the table)
    first_pid = None

    def count(pid, name):
        if counted is not None and name not in counted:
            return None, None
        counters[pid] = counters.get(pid, 0) + 1
        counters[(pid, name)] = counters.get((pid, name), 0) + 1
        return counters[pid], counters[(pid, name)]

    for raw in text.split("\n"):
        m = _LINE.match(raw)
        if not m:
            continue
        pid, rest = int(m.group(1)), m.group(3)
        ts = float(m.group(2)) if m.group(2) else None
        if ts is not None:
            t.t_last = ts
        if first_pid is None:
            first_pid = pid
            cwds[pid] = cwd
        if rest.startswith("+++"):
            ms = re.match(r"\+\+\+ killed by (\w+)", rest)
            if ms and pid == first_pid:
                t.signal = ms.group(1)
            continue
        if rest.startswith("---"):
            continue
        k = nth = None
        mr = re.match(r"^<\.\.\. (\w+) resumed>\s*(.*)$", rest, re.S)
        if mr:
            name = mr.group(1)
            if pid not in pending:
                continue
            pname, ptxt, (k, nth), ts = pending.pop(pid)
            rest = ptxt + mr.group(2)
        else:
            mn = re.match(r"^(\w+)\(", rest)
            if not mn:
                continue
            name = mn.group(1)
            k, nth = count(pid, name)
            if rest.rstrip().endswith("<unfinished ...>"):
                pending[pid] = (name, rest.rstrip()[:-len("<unfinished ...>")], (k, nth), ts)
                continue
        op = rest.find("(")
        cl = _find_close(rest, op)
        if cl < 0:
            t.parse_errors.append(raw[:300])
            continue
        args = _split_args(rest[op + 1:cl])
        mres = _RES.match(rest[cl + 1:])
        ret = errno = None
        retpath = None
        tail = ""
        if mres:
            rv = mres.group(1)
            ret = None if rv == "?" else int(rv, 0)
            retpath = mres.group(2)
            errno = mres.group(3)
            tail = mres.group(4) or ""
        injected = "(INJECTED)" in tail or "(DELAYED)" in tail
        base = cwds.get(pid, cwds.get(first_pid, cwd))
        c = Call(k=k, nth=nth, ts=ts, name=name, pid=pid, ret=ret, errno=errno, injected=injected, raw=raw[:400],
                 ok=(ret is not None and ret >= 0), flags=(), nwrites=0, nbytes=0, mutating=False)
        try:
            _fill(c, name, args, base)
        except (IndexError, ValueError, TypeError):
            t.parse_errors.append(raw[:300])
            continue
        # ---- bookkeeping
        if name in ("chdir",) and c.ok:
            cwds[pid] = c.path
        elif name == "fchdir" and c.ok and c.path:
            cwds[pid] = c.path
        if name in ("open", "openat", "creat"):
            wr = name == "creat" or any(f in c.flags for f in _WRITE_FLAGS)
            c.mutating = wr and (c.path is not None) and not c.path.startswith(("/dev/", "/proc/", "/sys/"))
            idx = len(t.all_calls)
            if c.ok:
                fds[c.ret] = idx if c.mutating else None
        elif name == "close":
            if c.fd in fds:
                del fds[c.fd]
            continue                                   # never reported
        elif name in ("dup", "dup2", "dup3"):
            if c.ok and c.fd in fds:
                fds[c.ret] = fds[c.fd]
            continue
        elif name in _FD_WRITERS:
            c.mutating = _regular(c.path)
            owner = fds.get(c.fd)
            if owner is not None:
                c.part_of = owner
                o = t.all_calls[owner]
                if c.ok and name not in ("fchmod",):
                    o.nwrites += 1
                    o.nbytes += c.ret if name != "ftruncate" else 0
                if name in ("fchmod", "ftruncate"):
                    c.part_of = None                   # reported as operations of their own
        elif name in _names(_M):
            c.mutating = True
        if k is None and counted is not None:
            continue                                   # bookkeeping call outside the counted set
        t.all_calls.append(c)
    t.main_pid = first_pid
    t.calls = [c for c in t.all_calls if c.mutating]
    return t


def _fill(c, name, a, base):
    """decode the arguments of the calls we understand into path / path2 / flags / fd"""
    def flags(x):
        return tuple(f for f in re.split(r"\|", x.split(",")[0].strip()) if f and not f.isdigit() and f != "0")
    if name == "openat":
        _, d = _fdval(a[0])
        c.path = _norm(d if d else base, _strval(a[1]))
        c.flags = flags(a[2])
    elif name == "open":
        c.path = _norm(base, _strval(a[0]))
        c.flags = flags(a[1])
    elif name == "creat":
        c.path = _norm(base, _strval(a[0]))
        c.flags = ("O_WRONLY", "O_CREAT", "O_TRUNC")
    elif name in ("mkdir", "rmdir", "unlink", "chmod", "truncate", "chdir"):
        c.path = _norm(base, _strval(a[0]))
    elif name in ("mkdirat", "unlinkat", "fchmodat", "utimensat"):
        _, d = _fdval(a[0])
        s = _strval(a[1])
        c.path = _norm(d, "") if s is None else _norm(d if d else base, s)     # utimensat(fd, NULL, ...)
        if name in ("unlinkat", "fchmodat", "utimensat") and len(a) > 2:
            c.flags = flags(a[-1]) if re.match(r"^[A-Z_|]+$", a[-1].strip()) else ()
    elif name in ("rename", "link"):
        c.path = _norm(base, _strval(a[0]))
        c.path2 = _norm(base, _strval(a[1]))
    elif name in ("renameat", "renameat2", "linkat"):
        _, d1 = _fdval(a[0])
        _, d2 = _fdval(a[2])
        c.path = _norm(d1 if d1 else base, _strval(a[1]))
        c.path2 = _norm(d2 if d2 else base, _strval(a[3]))
        if len(a) > 4:
            c.flags = flags(a[4])
    elif name == "symlink":
        c.path = _strval(a[0])
        c.path2 = _norm(base, _strval(a[1]))
    elif name == "symlinkat":
        _, d = _fdval(a[1])
        c.path = _strval(a[0])
        c.path2 = _norm(d if d else base, _strval(a[2]))
    elif name in ("write", "pwrite64", "writev", "read", "pread64", "ftruncate", "fchmod", "fsync", "fdatasync",
                  "getdents64", "close", "dup", "dup2", "dup3", "fchdir", "fstat"):
        c.fd, p = _fdval(a[0])
        c.path = _norm("/", p) if _regular(p) else p
    elif name == "copy_file_range":
        _, src = _fdval(a[0])
        c.fd, p = _fdval(a[2])
        c.path = _norm("/", p) if _regular(p) else p
        c.path2 = src
    elif name == "sendfile":
        c.fd, p = _fdval(a[0])
        _, src = _fdval(a[1])
        c.path = _norm("/", p) if _regular(p) else p
        c.path2 = src
    else:
        # other members of %file: first string argument is the path
        for i, x in enumerate(a):
            s = _strval(x)
            if s is not None:
                d = None
                if i > 0:
                    _, d = _fdval(a[i - 1])
                c.path = _norm(d if d else base, s)
                break


# --------------------------------------------------------------------------- running

def _inject_args(inject, setname):
    """strace arguments for an injection spec; returns (args, setname, paths)"""
    if not inject:
        return [], setname, []
    setname = inject.get("set", setname)
    expr = SETS[setname]
    when = inject["when"]
    if isinstance(when, int) or (isinstance(when, str) and ":" not in when):
        spec = "when=%s" % when                     # strace's native meaning: n-th call of every name in the set
    else:
        name, n = parse_point(when)
        if name not in _names(expr):
            raise ValueError("injection point %r is not in the counted set %r" % (when, setname))
        expr = name
        spec = "when=%s" % n
    if "error" in inject:
        spec = "error=%s:%s" % (inject["error"], spec)
    elif "signal" in inject:
        spec = "signal=%s:%s" % (inject["signal"], spec)
    elif "delay_us" in inject:
        spec = "delay_enter=%d:%s" % (int(inject["delay_us"]), spec)
    elif "delay_exit_us" in inject:
        spec = "delay_exit=%d:%s" % (int(inject["delay_exit_us"]), spec)
    else:
        raise ValueError("inject needs one of error / signal / delay_us / delay_exit_us: %r" % (inject,))
    paths = inject.get("path") or []
    if isinstance(paths, str):
        paths = [paths]
    return ["-e", "inject=%s:%s" % (expr, spec)], setname, list(paths)


def parse_point(pt):
    """injection point given as Call, (name, n), [name, n] or "name:n" -> (name, n)"""
    if isinstance(pt, Call):
        return pt.name, pt.nth
    if isinstance(pt, str):
        name, n = pt.split(":", 1)
        return name, (int(n) if n.isdigit() else n)
    name, n = pt
    return name, n


class Running:
    """a traced command running in the background (see start)"""

    def __init__(self, p, logf, cwd, counted, argv, timeout, keep_log):
        self.p, self.logf, self.cwd, self.counted, self.argv = p, logf, cwd, counted, argv
        self.timeout, self.keep_log = timeout, keep_log
        self.inject = None
        self.t0 = time.time()
        self._stdin = None
        self._done = None

    def poll(self):
        return self.p.poll()

    def tracee_pid(self):
        """pid of the traced command (the child of the strace process), or None if it is gone"""
        sp = self.p.pid
        try:
            kids = open("/proc/%d/task/%d/children" % (sp, sp)).read().split()
            if kids:
                return int(kids[0])
        except (OSError, ValueError):
            pass
        for d in os.listdir("/proc"):
            if d.isdigit():
                try:
                    st_ = open("/proc/%s/stat" % d).read()
                    if int(st_[st_.rindex(")") + 2:].split()[1]) == sp:
                        return int(d)
                except (OSError, ValueError, IndexError):
                    pass
        return None

    def wait_held(self, stable=0.15, timeout=30.0, step=0.02):
        """wait until the traced command sits in one and the same system-call stop for `stable` seconds -
        which is how a `delay_us` injection looks from outside (strace keeps the tracee in the
        syscall-enter stop for the whole delay).  Returns the content of /proc/<pid>/syscall (first field is
        the syscall number) or None when the command ended / the timeout expired.  Heuristic: confirm
        afterwards with the time stamps of the Trace (Call.ts of the delayed call, `held_window`)."""
        t_end = time.time() + timeout
        last, since = None, None
        while time.time() < t_end and self.p.poll() is None:
            pid = self.tracee_pid()
            cur = None
            if pid:
                try:
                    state = open("/proc/%d/stat" % pid).read()
                    state = state[state.rindex(")") + 2:].split()[0]
                    sc = open("/proc/%d/syscall" % pid).read().strip()
                    if state in ("t", "T") and sc and sc != "running":
                        cur = sc
                except OSError:
                    cur = None
            now = time.time()
            if cur is not None and cur == last:
                if now - since >= stable:
                    return cur
            else:
                last, since = cur, now
            time.sleep(step)
        return None

    def wait(self):
        """wait for the command (at most the timeout given to start), parse the trace, return the Trace"""
        if self._done is not None:
            return self._done
        t = Trace()
        t.argv = self.argv
        try:
            left = max(0.1, self.timeout - (time.time() - self.t0))
            out, err = self.p.communicate(input=self._stdin, timeout=left)
        except subprocess.TimeoutExpired:
            t.timed_out = True
            try:
                os.killpg(self.p.pid, signal.SIGKILL)
            except OSError:
                pass
            out, err = self.p.communicate()
        t.wall_s = round(time.time() - self.t0, 3)
        t.stdout = out.decode("utf-8", "replace") if isinstance(out, bytes) else (out or "")
        t.stderr = err.decode("utf-8", "replace") if isinstance(err, bytes) else (err or "")
        t.rc = self.p.returncode
        try:
            text = open(self.logf, encoding="utf-8", errors="surrogateescape").read()
        except OSError:
            text = ""
        parse(text, self.cwd, self.counted, t)
        # strace marks error and delay injections with (INJECTED) / (DELAYED) but not signal injections:
        # mark the call at the injection point ourselves when the run got that far
        if self.inject and "signal" in self.inject and not isinstance(self.inject.get("when"), int):
            try:
                c = t.call_at(self.inject["when"])
            except (ValueError, TypeError):
                c = None
            if c is not None:
                c.injected = True
        # strace re-raises the tracee's fatal signal on itself: rc = -signal
        if t.rc is not None and t.rc < 0 and t.signal is None:
            try:
                t.signal = signal.Signals(-t.rc).name
            except ValueError:
                t.signal = str(-t.rc)
        t.killed = t.signal is not None or t.timed_out
        if self.keep_log:
            t.strace_log = self.logf
        else:
            try:
                os.remove(self.logf)
            except OSError:
                pass
        self._done = t
        return t

    def kill(self):
        try:
            os.killpg(self.p.pid, signal.SIGKILL)
        except OSError:
            pass


def start(cmd, env=None, cwd=None, inject=None, timeout=120, stdin=None, set=None, path=None,
          keep_log=False, logdir=None):
    """start `cmd` (argv list) under strace in the background; returns Running (call .wait() for the Trace).
    set:  counted set of a recording run (default "mutating"; overridden by inject["set"])
    path: -P filter of a recording run (overridden by inject["path"])"""
    cwd = os.path.abspath(cwd or os.getcwd())
    iargs, setname, paths = _inject_args(inject, set or "mutating")
    if not paths and path:
        paths = [path] if isinstance(path, str) else list(path)
    expr = SETS[setname]
    logdir = logdir or os.path.join(common.BUILD, "tmp", "strace")
    os.makedirs(logdir, exist_ok=True)
    fd, logf = tempfile.mkstemp(prefix="st-", suffix=".log", dir=logdir)
    os.close(fd)
    argv = ["strace", "-f", "-y", "-ttt", "-s", "0", "-o", logf, "-e", "trace=" + expr + "," + _BOOKKEEPING] + iargs
    for p in paths:
        argv += ["-P", p]
    argv += ["--"] + list(cmd)
    data = stdin.encode() if isinstance(stdin, str) else stdin
    p = subprocess.Popen(argv, env=env, cwd=cwd, stdin=subprocess.PIPE if data is not None else subprocess.DEVNULL,
                         stdout=subprocess.PIPE, stderr=subprocess.PIPE, start_new_session=True)
    r = Running(p, logf, cwd, _names(expr), argv, timeout, keep_log)
    r.inject = inject
    r._stdin = data
    return r


def trace(cmd, env=None, cwd=None, inject=None, timeout=120, stdin=None, set=None, path=None, keep_log=False,
          logdir=None):
    """run `cmd` under strace to completion; returns Trace (module doc)."""
    return start(cmd, env=env, cwd=cwd, inject=inject, timeout=timeout, stdin=stdin, set=set, path=path,
                 keep_log=keep_log, logdir=logdir).wait()


def count_calls(cmd, env=None, cwd=None, timeout=120, stdin=None, set=None, path=None):
    """number of injection points (mutating calls of the main thread) of a fault-free run.  NOTE: the run is
    executed for real; restore the initial state afterwards.  The values to pass as `when` are the
    elements of trace(...).points ((name, n) pairs, not 1..count) - see the module doc."""
    return len(trace(cmd, env=env, cwd=cwd, timeout=timeout, stdin=stdin, set=set, path=path).points)


def run_plain(cmd, env=None, cwd=None, timeout=120, stdin=None):
    """run without tracing; returns (rc, stdout, stderr)"""
    try:
        p = subprocess.run(list(cmd), env=env, cwd=cwd, input=stdin, capture_output=True, text=True, timeout=timeout)
        return p.returncode, p.stdout, p.stderr
    except subprocess.TimeoutExpired:
        return 124, "", "[timeout]"


# --------------------------------------------------------------------------- the real rocfl CLI

def rocfl_env(home):
    """environment for the real CLI in which no user configuration exists: rocfl locates its config with the
    `directories` crate (ProjectDirs "org","rocfl","rocfl": $XDG_CONFIG_HOME or $HOME/.config, then
    rocfl/config.toml; /repo/src/config/mod.rs:80-87), so HOME and the XDG variables point into `home`
    (created empty).  NO_COLOR/TERM keep the output plain (styles are off anyway when stdout is a pipe)."""
    os.makedirs(home, exist_ok=True)
    env = {k: v for k, v in os.environ.items()
           if not k.startswith(("XDG_", "AWS_", "ROCFL", "RUST_LOG", "CONDA", "LD_PRELOAD"))}
    env.update(HOME=home, XDG_CONFIG_HOME=os.path.join(home, ".config"), XDG_DATA_HOME=os.path.join(home, ".local", "share"),
               XDG_CACHE_HOME=os.path.join(home, ".cache"), NO_COLOR="1", TERM="dumb", LC_ALL="C.UTF-8", TZ="UTC",
               RUST_BACKTRACE="0")
    return env


def rocfl_cmd(root, staging, *args):
    """argv of the real CLI (release build common.ROCFL_BIN; build it with common.build_rocfl_release()):
    rocfl -r <root> [-s <staging>] <subcommand> ...   (/repo/src/cmd/opts.rs:42-52)"""
    argv = [common.ROCFL_BIN, "-r", root]
    if staging:
        argv += ["-s", staging]
    return argv + [str(a) for a in args]


def staging_root(root, staging=None):
    """the staging root rocfl uses: -s <staging> or <root>/extensions/rocfl-staging"""
    return staging or os.path.join(root, "extensions", "rocfl-staging")


def locks_dir(root, staging=None):
    return os.path.join(staging_root(root, staging), "extensions", "rocfl-locks")


def lock_path(root, staging, object_id):
    """<staging>/extensions/rocfl-locks/<sha256(id)>.lock   (/repo/src/ocfl/lock.rs:32-34)"""
    import hashlib
    return os.path.join(locks_dir(root, staging), hashlib.sha256(object_id.encode("utf-8")).hexdigest() + ".lock")


def hashed_ntuple(object_id):
    """relative object root under layout 0004-hashed-n-tuple (sha256, 3x3): used by every staging root and by
    storage roots created with the default `rocfl init`"""
    import hashlib
    h = hashlib.sha256(object_id.encode("utf-8")).hexdigest()
    return "%s/%s/%s/%s" % (h[0:3], h[3:6], h[6:9], h)


def staged_object_root(root, staging, object_id):
    return os.path.join(staging_root(root, staging), hashed_ntuple(object_id))


def fmt_ops(ops, strip=None):
    """printable one-line-per-op rendering; `strip` prefix is replaced by '~'"""
    def sh(p):
        if strip and isinstance(p, str) and p.startswith(strip):
            return "~" + p[len(strip):]
        return p
    return ["%-9s %s" % (o[0], "  ->  ".join(str(sh(x)) for x in o[1:])) for o in ops]


# --------------------------------------------------------------------------- self-test

def lock_bracket_ok(ops, lock, prefixes):
    """model-free trace-shape predicate used by the self-test (C13 evaluates the same shape inside Coq):
    every effective op that touches a path below one of `prefixes` lies strictly between the
    createnew of `lock` and the unlink of `lock`"""
    def touches(o):
        return any(isinstance(x, str) and any(common_under(x, p) for p in prefixes) for x in o[1:])
    try:
        a = ops.index(("createnew", lock))
    except ValueError:
        a = None
    try:
        z = len(ops) - 1 - ops[::-1].index(("unlink", lock))
    except ValueError:
        z = None
    idx = [i for i, o in enumerate(ops) if touches(o)]
    if not idx:
        return True
    return a is not None and z is not None and a < min(idx) and max(idx) < z


def common_under(path, prefix):
    return path == prefix or path.startswith(prefix.rstrip("/") + "/")


def _selftest():
    import shutil
    common.build_rocfl_release()
    base = os.path.join(common.BUILD, "tmp", "strace-selftest-%d" % os.getpid())
    shutil.rmtree(base, ignore_errors=True)
    os.makedirs(base)
    ok = True

    def check(cond, what):
        nonlocal ok
        print(("  ok   " if cond else "  FAIL ") + what)
        ok = ok and bool(cond)

    try:
        env = rocfl_env(os.path.join(base, "home"))
        root = os.path.join(base, "root")
        src = os.path.join(base, "src")
        os.makedirs(src)
        with open(os.path.join(src, "a.txt"), "w") as f:
            f.write("hello\n")
        with open(os.path.join(src, "ü b.txt"), "w") as f:
            f.write("umlaut\n")
        rc, out, err = run_plain(rocfl_cmd(root, None, "init"), env=env, cwd=base)
        check(rc == 0, "rocfl init rc=%s %s" % (rc, err.strip()[:100]))
        oid = "obj-1"
        lock = lock_path(root, None, oid)
        objroots = [staged_object_root(root, None, oid), os.path.join(root, hashed_ntuple(oid))]
        for title, args in [("new", ["new", oid]),
                            ("cp", ["cp", oid, os.path.join(src, "a.txt"), os.path.join(src, "ü b.txt"), "--", "dir/"]),
                            ("commit", ["commit", oid, "-m", "first"])]:
            t = trace(rocfl_cmd(root, None, *args), env=env, cwd=base)
            print("== rocfl %s: rc=%s wall=%.2fs counted calls=%d mutating=%d points=%s" % (
                title, t.rc, t.wall_s, len(t.all_calls), len(t.calls), t.points[:3] + ["..."] + t.points[-2:]))
            for l in fmt_ops(t.ops, strip=base):
                print("     " + l)
            check(t.rc == 0 and not t.parse_errors, "rc 0, no parse errors %r" % (t.parse_errors[:2],))
            check(lock_bracket_ok(t.ops, lock, objroots), "every op below the object's roots lies between lock createnew and lock unlink")
            check(t.ops[-1] == ("unlink", lock), "last op is the lock unlink")
            check(not os.listdir(locks_dir(root)), "locks directory empty afterwards")
        check(os.path.exists(os.path.join(root, hashed_ntuple(oid), "v1", "content", "dir", "ü b.txt")),
              "non-ASCII file name committed and decoded")

        # ---- reproducibility of points and EIO injection: second version, fault at a chosen mutating call
        p = os.path.join(src, "b.txt")
        with open(p, "w") as f:
            f.write("b.txt" * 3)
        rc, _, e = run_plain(rocfl_cmd(root, None, "cp", oid, p, "--", "b.txt"), env=env, cwd=base)
        check(rc == 0, "staged b.txt " + e.strip()[:100])
        snap = os.path.join(base, "snap")
        shutil.copytree(root, snap, symlinks=True)

        def restore():
            shutil.rmtree(root)
            shutil.copytree(snap, root, symlinks=True)
        cmd = rocfl_cmd(root, None, "commit", oid, "-m", "second")
        rec = trace(cmd, env=env, cwd=base)
        n = len(rec.points)
        print("== recording run of commit #2: rc=%s, %d injection points" % (rec.rc, n))
        for l in fmt_ops(rec.ops, strip=base):
            print("     " + l)
        restore()
        check(count_calls(cmd, env=env, cwd=base) == n, "count_calls agrees with a second recording run")
        restore()
        rn = [c for c in rec.calls if c.name.startswith("rename")]
        check(len(rn) >= 1, "commit renames the version directory: %r" % (rn[:1],))
        pt = rn[0].point
        t = trace(cmd, env=env, cwd=base, inject={"when": pt, "error": "EIO"})
        inj = t.injected_calls()
        print("== EIO at %r: rc=%s injected=%r stderr=%s" % (pt, t.rc, inj, t.stderr.strip()[:120]))
        check(t.rc not in (0, None) and not t.killed, "command reports failure")
        check(len(inj) == 1 and inj[0].name == rn[0].name and inj[0].path == rn[0].path and inj[0].errno == "EIO"
              and not inj[0].ok and inj[0].k == rn[0].k, "the injected call is the same rename (same k) as in the recording run")
        check(("rename", rn[0].path, rn[0].path2) not in t.ops, "failed call dropped from ops")
        check((("rename", rn[0].path, rn[0].path2), False) in t.fsops(include_failed=True), "... and kept in fsops(include_failed)")
        check(not os.listdir(locks_dir(root)), "locks directory empty after the failed commit")
        restore()

        # ---- every point of the recording run hits the same call again (error injection on each)
        bad = []
        for q in rec.points:
            t = trace(cmd, env=env, cwd=base, inject={"when": q, "error": "ENOSPC"})
            inj = t.injected_calls()
            want = rec.call_at(q)
            if len(inj) != 1 or inj[0].path != want.path or inj[0].name != want.name:
                bad.append((q, inj, want))
            restore()
        check(not bad, "all %d points reproduce (ENOSPC at each) %r" % (n, bad[:1]))

        # ---- SIGKILL at the same call
        t = trace(cmd, env=env, cwd=base, inject={"when": pt, "signal": "SIGKILL"})
        print("== SIGKILL at %r: rc=%s killed=%s signal=%s last call=%r" % (pt, t.rc, t.killed, t.signal, t.all_calls[-1]))
        check(t.killed and t.signal == "SIGKILL", "killed by SIGKILL")
        check(t.all_calls[-1].ret is None and t.all_calls[-1].path == rn[0].path and not t.all_calls[-1].ok,
              "the rename was not executed (= ?)")
        check(os.path.exists(lock), "lock file remains after a kill (not a return)")
        check(not os.path.exists(rn[0].path2), "version directory not installed")
        restore()

        # ---- kill in the middle of a file (set mutating+write)
        rec2 = trace(cmd, env=env, cwd=base, set="mutating+write")
        restore()
        wr = {}
        for c in rec2.all_calls:
            if c.name == "write" and c.mutating:
                wr.setdefault(c.path, []).append(c)
        tgt = max(wr, key=lambda k_: len(wr[k_]))
        check(len(wr[tgt]) > 10, "%s written with %d write calls" % (tgt[len(base):], len(wr[tgt])))
        mid = wr[tgt][len(wr[tgt]) // 2]
        t = trace(cmd, env=env, cwd=base, inject={"when": mid.point, "signal": "SIGKILL", "set": "mutating+write"})
        size = os.path.getsize(tgt) if os.path.exists(tgt) else -1
        print("== SIGKILL at %r: killed=%s, file has %d bytes (partial)" % (mid.point, t.killed, size))
        check(t.killed and t.all_calls[-1].path == tgt and t.all_calls[-1].name == "write" and size > 0, "killed inside the file")
        restore()

        # ---- path-targeted injection
        side = os.path.join(root, hashed_ntuple(oid), "inventory.json.sha512")
        t = trace(cmd, env=env, cwd=base, inject={"when": ("openat", 1), "error": "EACCES", "path": side})
        print("== EACCES at the first openat of %s: rc=%s injected=%r" % (os.path.basename(side), t.rc, t.injected_calls()))
        check(len(t.injected_calls()) == 1 and t.injected_calls()[0].path == side, "path filter hits the sidecar")
        restore()

        # ---- delay (background run)
        t0 = time.time()
        r = start(cmd, env=env, cwd=base, inject={"when": pt, "delay_us": 700000})
        sc = r.wait_held()
        t_seen = time.time()
        held = os.path.exists(lock)
        t = r.wait()
        win = t.held_window(700000)
        print("== delay 0.7s at %r: rc=%s wall=%.2fs /proc/pid/syscall=%s lock held during the delay: %s window=%r seen at %.3f" % (
            pt, t.rc, time.time() - t0, (sc or "").split(" ")[0], held, win, t_seen))
        check(t.rc == 0 and t.wall_s >= 0.7 and held, "delayed run succeeds, lock was visible meanwhile")
        check(sc is not None and sc.split(" ")[0] == "82" and win and win[0] <= t_seen <= win[1],
              "wait_held() returned inside the delay window of the rename (syscall 82)")
        check(not os.listdir(locks_dir(root)), "locks directory empty afterwards")

        # ---- stop request
        shutil.rmtree(snap)
        shutil.copytree(root, snap, symlinks=True)
        cpc = rocfl_cmd(root, None, "cp", oid, os.path.join(src, "a.txt"), "--", "sig.txt")
        p1 = trace(cpc, env=env, cwd=base).points[0]
        restore()
        t = trace(cpc, env=env, cwd=base, inject={"when": p1, "signal": "SIGINT"})
        print("== SIGINT at %r of cp: rc=%s killed=%s stdout=%s" % (p1, t.rc, t.killed, t.stdout.strip()[:80]))
        check(not t.killed and not os.listdir(locks_dir(root)), "stop request handled, lock released")
        check([c.point for c in t.injected_calls()] == [p1] and "Stopping rocfl" in t.stdout, "the call at the signal's point is marked injected")
    finally:
        shutil.rmtree(base, ignore_errors=True)
    print("SELFTEST " + ("PASSED" if ok else "FAILED"))
    return 0 if ok else 1


if __name__ == "__main__":
    sys.exit(_selftest())
