"""C07 helpers: object listings for the Gallina validator (Model/Validate.v), Coq term
printing, the three verdicts (R = rocfl CLI, G = Gallina, P = vplib/ocflv.py), JSON
trees that keep member order and duplicates, re-serialisation with chosen spellings."""
import concurrent.futures
import hashlib
import json
import os
import re
import shutil
import subprocess

from . import common, ocflv

FIX = os.path.join(common.REPO, "resources", "test", "validate")
EXTRA_ALGS = ("md5", "sha1", "blake2b-512")


# --------------------------------------------------------------------------- Coq terms

CHUNK = 1200      # a Coq string literal is a term nested one level per character: keep the nesting shallow


def coq_bytes(data):
    """Coq term of type bytes; printable runs as (chunked) string literals, the rest as numerals"""
    if isinstance(data, str):
        data = data.encode("utf-8", "surrogatepass")
    if not data:
        return "[]"
    parts = []
    i, n = 0, len(data)
    while i < n:
        j = i
        while j < n and 32 <= data[j] < 127 and j - i < CHUNK:
            j += 1
        if j > i:
            parts.append('(b "%s")' % data[i:j].decode("ascii").replace('"', '""'))
        i = j
        while j < n and not (32 <= data[j] < 127) and j - i < 300:
            j += 1
        if j > i:
            parts.append("(bs [%s])" % "; ".join(str(c) for c in data[i:j]))
        i = j
    if len(parts) == 1:
        return parts[0]
    # balanced tree of appends (a right-nested chain of a hundred ++ is fine, thousands are not)
    while len(parts) > 1:
        parts = ["(%s ++ %s)" % (parts[k], parts[k + 1]) if k + 1 < len(parts) else parts[k] for k in range(0, len(parts), 2)]
    return parts[0]


def digests_of(data, extra):
    d = [("sha256", hashlib.sha256(data).hexdigest()), ("sha512", hashlib.sha512(data).hexdigest())]
    if extra:
        d += [("md5", hashlib.md5(data).hexdigest()), ("sha1", hashlib.sha1(data).hexdigest()),
              ("blake2b-512", hashlib.blake2b(data).hexdigest())]
    return d


def wants_bytes(name, depth):
    return depth <= 1 and (name.startswith(b"0=") or name == b"inventory.json" or name.startswith(b"inventory.json."))


def listing(root):
    """abstract listing of an object root:
    ('d', [(name bytes, node)...]) | ('f', [(alg, hex)...], bytes|None) | ('o',)"""
    extra = False
    try:
        extra = b'"fixity"' in open(os.path.join(root, "inventory.json"), "rb").read()
    except OSError:
        pass

    def node(p, depth):
        if os.path.islink(p):
            return ("o",)
        if os.path.isdir(p):
            out = []
            for name in sorted(os.listdir(os.fsencode(p))):
                out.append((name, node(os.path.join(os.fsencode(p), name).decode("utf-8", "surrogateescape"), depth + 1)))
            return ("d", out)
        if os.path.isfile(p):
            data = open(p, "rb").read()
            nm = os.fsencode(os.path.basename(p))
            return ("f", digests_of(data, extra), data if wants_bytes(nm, depth - 1) else None)
        return ("o",)
    return node(root, 0)


def coq_node(n):
    if n[0] == "d":
        return "(NDir [%s])" % "; ".join("(%s, %s)" % (coq_bytes(k), coq_node(v)) for k, v in n[1])
    if n[0] == "f":
        digs = "[%s]" % "; ".join('(b "%s", b "%s")' % (a, d) for a, d in n[1])
        return "(NFile %s %s)" % (digs, "None" if n[2] is None else "(Some %s)" % coq_bytes(n[2]))
    return "NOther"


def inventories_of(lst):
    """bytes of the inventories of a listing: the root inventory first, then those of the
    version directories; [] when there is no root inventory"""
    if lst[0] != "d":
        return []
    root = [nd[2] for name, nd in lst[1] if name == b"inventory.json" and nd[0] == "f" and nd[2] is not None]
    if not root:
        return []
    out = [root[0]]
    for name, nd in lst[1]:
        if nd[0] == "d" and re.fullmatch(rb"v[0-9]+", name):
            for n2, nd2 in nd[1]:
                if n2 == b"inventory.json" and nd2[0] == "f" and nd2[2] is not None:
                    out.append(nd2[2])
    return out


IMPORTS = ["Base.Bytes", "Model.Json", "Model.JsonValue", "Model.Validate", "Corr.CheckValidate"]


def parse_codes(txt):
    """'[33; 50]' -> [33, 50]"""
    return [int(x) for x in re.findall(r"\d+", txt)]


def g_verdicts(name, roots, batch=20):
    """Gallina verdicts of object roots: list of dict(fix=[codes], nofix=[codes])"""
    terms = ["g_object2 %s" % coq_node(listing(r)) for r in roots]
    res = common.coq_eval(name, IMPORTS, terms, batch=batch)
    out = []
    for pair in res:
        m = re.match(r"^\((.*),\s*(\[[^\]]*\]|nil)\)$", pair)
        if not m:
            raise common.BuildError("unexpected Coq value for g_object2: %r" % pair[:200])
        out.append({"fix": parse_codes(m.group(1)), "nofix": parse_codes(m.group(2))})
    return out


# --------------------------------------------------------------------------- R: the real validator (CLI)

def r_one(args):
    rocfl, repo_root, rel, fixity = args
    cmd = [rocfl, "-r", repo_root, "validate", "-l", "error"] + ([] if fixity else ["-n"]) + ["-p", rel]
    try:
        p = subprocess.run(cmd, stdout=subprocess.PIPE, stderr=subprocess.PIPE, timeout=120)
    except subprocess.TimeoutExpired:
        return {"kind": "timeout"}
    out = p.stdout.decode("utf-8", "replace")
    err = p.stderr.decode("utf-8", "replace")
    codes = sorted(set(re.findall(r"\[(E\d+)\]", out)))
    if p.returncode == 0:
        return {"kind": "valid", "codes": codes}
    if p.returncode == 2:
        return {"kind": "invalid", "codes": codes}
    if p.returncode == 101 or "panicked" in err:
        return {"kind": "panic", "msg": err[-300:]}
    return {"kind": "error", "rc": p.returncode, "msg": (err or out)[-300:]}


def r_verdicts(rocfl, items, workers=None):
    """items: list of (repo_root, rel path of the object root, fixity) -> list of outcome dicts"""
    with concurrent.futures.ThreadPoolExecutor(max_workers=workers or common.NPROC) as ex:
        return list(ex.map(r_one, [(rocfl, a, b_, c) for a, b_, c in items]))


# --------------------------------------------------------------------------- P: the Python validator

def strict_json_ok(data):
    """RFC 8259 documents only: Python's json also reads NaN/Infinity and lone surrogates"""
    try:
        txt = data.decode("utf-8")
    except UnicodeDecodeError:
        return False

    def bad_const(x):
        raise ValueError("constant " + x)
    try:
        v = json.loads(txt, parse_constant=bad_const)
    except ValueError:
        return False
    try:
        json.dumps(v, ensure_ascii=False).encode("utf-8")
    except UnicodeEncodeError:
        return False
    return True


def p_verdict(root, fixity):
    try:
        errs = ocflv.validate_object(root, fixity=fixity)
    except RecursionError:
        errs = [("E033", "nesting too deep")]
    codes = sorted(set(c for c, _ in errs))
    return codes


# --------------------------------------------------------------------------- JSON trees (order and duplicates kept)

class O(list):
    """JSON object as an ordered list of (key, value) pairs (duplicates allowed)"""


def jload(data):
    if isinstance(data, bytes):
        data = data.decode("utf-8")
    return json.loads(data, object_pairs_hook=lambda p: O(p))


def jget(o, key, default=None):
    if isinstance(o, O):
        for k, v in o:
            if k == key:
                return v
    return default


def jset(o, key, val):
    for i, (k, v) in enumerate(o):
        if k == key:
            o[i] = (key, val)
            return
    o.append((key, val))


def jdel(o, key):
    o[:] = [(k, v) for k, v in o if k != key]


def jrename(o, key, new):
    o[:] = [((new if k == key else k), v) for k, v in o]


def jcopy(n):
    if isinstance(n, O):
        return O((k, jcopy(v)) for k, v in n)
    if isinstance(n, list):
        return [jcopy(x) for x in n]
    return n


class Spelling:
    """how a tree is written out"""

    def __init__(self, rng=None, esc="plain", ws="compact", shuffle=False, slash=False):
        self.rng, self.esc, self.ws, self.shuffle, self.slash = rng, esc, ws, shuffle, slash

    def string(self, s):
        if self.esc == "plain":
            t = json.dumps(s, ensure_ascii=False)
        elif self.esc == "ascii":
            t = json.dumps(s, ensure_ascii=True)
        elif self.esc == "u-all":
            out = []
            for ch in s:
                cp = ord(ch)
                if cp >= 0x10000:
                    cp -= 0x10000
                    out.append("\\u%04x\\u%04x" % (0xD800 + (cp >> 10), 0xDC00 + (cp & 0x3FF)))
                else:
                    out.append("\\u%04X" % cp if self.rng and self.rng.random() < 0.5 else "\\u%04x" % cp)
            t = '"' + "".join(out) + '"'
        elif self.esc == "u-some":
            out = []
            for ch in s:
                cp = ord(ch)
                if self.rng.random() < 0.3 and cp < 0x10000:
                    out.append("\\u%04x" % cp)
                else:
                    out.append(json.dumps(ch, ensure_ascii=False)[1:-1])
            t = '"' + "".join(out) + '"'
        else:
            raise ValueError(self.esc)
        if self.slash:
            t = t.replace("/", "\\/")
        return t

    def gap(self):
        if self.ws == "compact":
            return ""
        if self.ws == "spaces":
            return self.rng.choice(["", " ", "  ", "\t", "\n", "\r\n", " \n\t "])
        return ""

    def dump(self, n, ind=0):
        if isinstance(n, O) or isinstance(n, dict):
            items = list(n) if isinstance(n, O) else list(n.items())
            if self.shuffle:
                self.rng.shuffle(items)
            if self.ws == "pretty":
                if not items:
                    return "{}"
                pad = "  " * (ind + 1)
                return "{\n" + ",\n".join(pad + self.string(k) + ": " + self.dump(v, ind + 1) for k, v in items) + "\n" + "  " * ind + "}"
            g = self.gap
            return "{" + g() + ",".join(g() + self.string(k) + g() + ":" + g() + self.dump(v) + g() for k, v in items) + "}"
        if isinstance(n, (list, tuple)):
            if self.ws == "pretty":
                if not n:
                    return "[]"
                pad = "  " * (ind + 1)
                return "[\n" + ",\n".join(pad + self.dump(v, ind + 1) for v in n) + "\n" + "  " * ind + "]"
            g = self.gap
            return "[" + ",".join(g() + self.dump(v) + g() for v in n) + "]"
        if isinstance(n, str):
            return self.string(n)
        if isinstance(n, Rawjson):
            return n.text
        return json.dumps(n)

    def bytes(self, n):
        return (self.gap() + self.dump(n) + self.gap()).encode("utf-8")


class Rawjson:
    def __init__(self, text):
        self.text = text


PLAIN = Spelling()


# --------------------------------------------------------------------------- writing objects

def write_inventory(obj, data, alg=None, into_head=True, sidecar_sep=" ", head=None):
    """install inventory bytes as the root inventory (and the head version's copy) with a matching sidecar"""
    t = None
    try:
        t = jload(data)
    except Exception:
        pass
    if alg is None:
        a = jget(t, "digestAlgorithm") if t is not None else None
        alg = a if a in ("sha512", "sha256") else "sha512"
    if head is None and t is not None:
        h = jget(t, "head")
        head = h if isinstance(h, str) else None
    dirs = [obj]
    if into_head and head and re.fullmatch(r"v\d+", head) and os.path.isdir(os.path.join(obj, head)):
        dirs.append(os.path.join(obj, head))
    for d in dirs:
        for n in os.listdir(d):
            if n.startswith("inventory.json"):
                os.remove(os.path.join(d, n))
        with open(os.path.join(d, "inventory.json"), "wb") as f:
            f.write(data)
        with open(os.path.join(d, "inventory.json." + alg), "wb") as f:
            f.write((hashlib.new(alg, data).hexdigest() + sidecar_sep + "inventory.json\n").encode())


def copy_object(src, dst):
    shutil.copytree(src, dst, symlinks=True)
    return dst
